(* drv_text.ml — the two text formats (TextFmt.v): model renderers and parsers over
   strings supplied by the harness.

   Strings are given as code points in decimal joined by '.', "-" for the empty
   string ("d-strings"); lists of them are joined by ',', "_" for the empty list.
   repr and literal_eval are EXTERNAL to the model: the harness supplies the repr
   text of every object and the driver turns the tables into the two functions. *)
open Common
open TextFmt

let dstr (s : string) : str =
  if s = "-" then [] else SL.map (fun x -> n_of_int (int_of_string x)) (String.split_on_char '.' s)
let show_dstr (l : str) : string =
  if l = [] then "-" else String.concat "." (SL.map (fun c -> string_of_int (int_of_n c)) l)
let dstr_list (s : string) : str list =
  if s = "_" then [] else SL.map dstr (String.split_on_char ',' s)
let chars_of_string (s : string) : str =
  SL.init (String.length s) (fun i -> n_of_int (Char.code s.[i]))
let b01 (b : bool) = if b then "1" else "0"

(* sections:  idx:name=k;name=k;T / idx: ...   ("_" for no section); a parameter value is
   the token k of the parameter repr table, the model object for it is PyInts [k] *)
let parse_sections (s : string) (td : 'a) : 'a section list =
  if s = "_" then [] else
  SL.map (fun sec ->
      match String.split_on_char ':' sec with
      | [idx; ps] ->
        let params = if ps = "" then [] else
            SL.map (fun p ->
                if p = "T" then PTemplate td else
                match String.split_on_char '=' p with
                | [name; k] -> PVal (dstr name, PyInts [z_of_string k])
                | _ -> failwith "param") (String.split_on_char ';' ps) in
        { s_index = n_of_string idx; s_params = params }
      | _ -> failwith "section") (String.split_on_char '/' s)

let param_repr (preprs : str array) (p : pyv) : str option =
  match p with
  | PyInts [k] -> let i = int_of_z k in if i >= 0 && i < Array.length preprs then Some preprs.(i) else None
  | _ -> None

let pvals_ok (repr : pyv -> str) (secs : 'a section list) : bool =
  SL.for_all (fun s -> SL.for_all (fun p -> match p with
      | PVal (name, v) -> TextFmtSpec.pval_line_ok name (repr v)
      | PTemplate _ -> true) s.s_params) secs

(* ---- c09flat <key> <secs> <preprs> <nsub> <sub>...
   sub  = links|cells        links = a>b,a>b or -      cells = cell;cell;... or _
   cell = dtext~repr~kind    kind: p plain, z plain None, f<b1_b2..> flag table, g flag table None *)
let parse_links (s : string) =
  if s = "-" then [] else
    SL.map (fun kv -> match String.split_on_char '>' kv with
        | [a; b] -> (n_of_string a, n_of_string b) | _ -> failwith "links") (String.split_on_char ',' s)

let cmd_flat args =
  match args with
  | key :: secs :: preprs :: nsub :: subs ->
    let preprs = Array.of_list (dstr_list preprs) in
    let counter = ref 0 in
    let cell_repr : (int, str) Hashtbl.t = Hashtbl.create 64 in
    let none_repr = ref (chars_of_string "None") in
    let subsets = SL.map (fun sub ->
        match String.split_on_char '|' sub with
        | [links; cells] ->
          let cells = if cells = "_" then [] else
              SL.map (fun c -> match String.split_on_char '~' c with
                  | [dt; r; kind] ->
                    let k = !counter in incr counter;
                    Hashtbl.replace cell_repr k (dstr r);
                    let tok = Descr.VInt (z_of_int k) in
                    (match kind.[0] with
                     | 'p' -> { fc_dtext = dstr dt; fc_val = tok; fc_flag = None }
                     | 'z' -> none_repr := dstr r; { fc_dtext = dstr dt; fc_val = Descr.VNone; fc_flag = None }
                     | 'g' -> none_repr := dstr r; { fc_dtext = dstr dt; fc_val = Descr.VNone; fc_flag = Some [] }
                     | 'f' ->
                       let bits = String.sub kind 1 (String.length kind - 1) in
                       let bits = if bits = "" then [] else SL.map n_of_string (String.split_on_char '_' bits) in
                       { fc_dtext = dstr dt; fc_val = tok; fc_flag = Some bits }
                     | _ -> failwith "cell kind")
                  | _ -> failwith "cell") (String.split_on_char ';' cells) in
          (parse_links links, cells)
        | _ -> failwith "flat subset") subs in
    if SL.length subsets <> int_of_string nsub then failwith "nsub" else
    let repr (p : pyv) : str =
      match param_repr preprs p with
      | Some s -> s
      | None ->
        (match p with
         | PyV (Descr.VInt k) | PyTup (Descr.VInt k, _) ->
           (match Hashtbl.find_opt cell_repr (int_of_z k) with Some s -> s | None -> chars_of_string "?")
         | PyV Descr.VNone -> !none_repr
         | _ -> chars_of_string "?") in
    let m = { m_key = dstr key; m_sections = parse_sections secs subsets } in
    let text = render_flat_text repr m in
    let nolb_ok =
      nolb m.m_key &&
      SL.for_all (fun (links, cells) ->
          let rec go i cs = match cs with
            | [] -> true
            | c :: r -> nolb (flat_line repr links i c) && go (BinNat.N.add i (n_of_int 1)) r in
          go (n_of_int 0) cells) subsets in
    "ok " ^ show_dstr text
    ^ " shape=" ^ b01 (TextFmtSpec.sections_shape m.m_sections)
    ^ ",pval=" ^ b01 (pvals_ok repr m.m_sections)
    ^ ",nolb=" ^ b01 nolb_ok
    ^ ",nonempty=" ^ b01 (subsets <> [])
  | _ -> failwith "c09flat"

(* ---- c09parse <flat|nested> <table> <text>
   table entries: dstring      the text of object number k (k = position of the entry)
                  dstring^k    a tuple whose first element is object k
                  dstring=k    another text of object k
                  dstring!     literal_eval raises on this text
   literal_eval s = the first entry whose text is s.  A text that is not in the table is reported
   ("need t1,t2,..."): the harness evaluates the real literal_eval on it and asks again.
   Output: sections '/', items ';', a value = its object number, template = [a,b|c,d] *)
let cmd_parse args =
  match args with
  | [kind; table; text] ->
    let tbl : (string, pyv Base.result) Hashtbl.t = Hashtbl.create 256 in
    if table <> "_" then
      SL.iteri (fun k e ->
          let n = String.length e in
          let (s, v) =
            if n > 0 && e.[n - 1] = '!' then (String.sub e 0 (n - 1), Base.Err Base.EValue) else
            match String.split_on_char '^' e with
            | [s; t] -> (s, Base.Ok (PyTup (Descr.VInt (z_of_string t), [])))
            | _ ->
              (match String.split_on_char '=' e with
               | [s; t] -> (s, Base.Ok (PyV (Descr.VInt (z_of_string t))))
               | _ -> (e, Base.Ok (PyV (Descr.VInt (z_of_int k))))) in
          if not (Hashtbl.mem tbl s) then Hashtbl.add tbl s v) (String.split_on_char ',' table);
    let missing = ref [] in
    let leval (s : str) : pyv Base.result =
      let key = show_dstr s in
      match Hashtbl.find_opt tbl key with
      | Some v -> v
      | None -> (if not (SL.mem key !missing) then missing := key :: !missing); Base.Err Base.EValue in
    let r = (if kind = "flat" then flat_text_to_flat_json leval (dstr text)
             else nested_text_to_flat_json leval (dstr text)) in
    if !missing <> [] then "need " ^ String.concat "," (SL.rev !missing) else
    (match r with
     | Base.Err e -> err_string e
     | Base.Ok secs ->
       let tok (p : pyv) = match p with PyV (Descr.VInt k) -> string_of_z k | _ -> "?" in
       let item (it : item) = match it with
         | IVal p -> tok p
         | ITemplate subs -> "[" ^ String.concat "|" (SL.map (fun l -> String.concat "," (SL.map tok l)) subs) ^ "]" in
       "ok " ^ (if secs = [] then "_" else
                  String.concat "/" (SL.map (fun s -> if s = [] then "_" else String.concat ";" (SL.map item s)) secs)))
  | _ -> failwith "c09parse"

(* ---- c09nested <fuel> <key> <secs> <preprs> <nvstrs> <nsub> <sub>... <template tokens>
   sub = labels|values|links|descrs|reprs   (labels: ASCII, ',' separated; values as in the coder
   driver; descrs, reprs: d-strings per flat index)      nvstrs = id=dstring,... or _ *)
let cmd_nested args =
  match args with
  | fuel :: key :: secs :: preprs :: nvstrs :: nsub :: rest ->
    let nsub = int_of_string nsub in
    let subs = SL.filteri (fun i _ -> i < nsub) rest in
    let tmpl = SL.filteri (fun i _ -> i >= nsub) rest in
    let (t, _) = Drv_coder.parse_template tmpl in
    let preprs = Array.of_list (dstr_list preprs) in
    let nvtbl : (int, str) Hashtbl.t = Hashtbl.create 16 in
    if nvstrs <> "_" then
      SL.iter (fun e -> match String.split_on_char '=' e with
          | [id; s] -> Hashtbl.replace nvtbl (int_of_string id) (dstr s)
          | _ -> failwith "nvstrs") (String.split_on_char ',' nvstrs);
    let nvstr (id : BinNums.coq_N) : str =
      match Hashtbl.find_opt nvtbl (int_of_n id) with Some s -> s
                                                      | None -> chars_of_string (Printf.sprintf "%06d" (int_of_n id)) in
    (* repr is a function of the value: collect (value, text) over all subsets *)
    let vtbl : (Descr.value, str) Hashtbl.t = Hashtbl.create 256 in
    let conflict = ref false in
    let wire_err = ref None in
    let xnext_ok = ref true in
    let nsubsets = SL.map (fun sub ->
        match String.split_on_char '|' sub with
        | [labels; vals; links; descrs; reprs] ->
          let labels = if labels = "-" then [||] else Array.of_list (String.split_on_char ',' labels) in
          let vals = Drv_coder.parse_values vals in
          let descrs = Array.of_list (dstr_list descrs) in
          let reprs = dstr_list reprs in
          SL.iteri (fun i r ->
              let v = SL.nth vals i in
              match Hashtbl.find_opt vtbl v with
              | Some r0 -> if r0 <> r then conflict := true
              | None -> Hashtbl.add vtbl v r) reprs;
          let ndesc = n_of_int (Array.length labels) in
          let (nodes, attrs) =
            match Wire.wire ndesc vals (parse_links links) t with
            | Base.Err e -> (if !wire_err = None then wire_err := Some e); (Wire.WNil, [])
            | Base.Ok (nodes, st) ->
              if int_of_n st.Wire.x_next <> SL.length vals then xnext_ok := false;
              (nodes, st.Wire.x_attrs) in
          let at (a : str array) i = let k = int_of_n i in if k < Array.length a then a.(k) else [] in
          { ns_nodes = nodes; ns_attrs = attrs; ns_vals = vals;
            ns_dstr = (fun i -> let k = int_of_n i in if k < Array.length labels then chars_of_string labels.(k) else []);
            ns_descr = at descrs; ns_nvstr = nvstr }
        | _ -> failwith "nested subset") subs in
    (match !wire_err with
     | Some e -> "wire-" ^ err_string e
     | None ->
       if !conflict then "repr-conflict" else
       let repr (p : pyv) : str =
         match param_repr preprs p with
         | Some s -> s
         | None -> (match p with
             | PyV v -> (match Hashtbl.find_opt vtbl v with Some s -> s | None -> chars_of_string "?")
             | _ -> chars_of_string "?") in
       let m = { m_key = dstr key; m_sections = parse_sections secs nsubsets } in
       let text = render_nested_text repr (nat_of_int (int_of_string fuel)) m in
       let all f = SL.for_all f nsubsets in
       let vtext = all (fun sub ->
           let n = SL.length sub.ns_vals in
           let rec go i = i >= n || (TextFmtSpec.vtext_ok repr sub (n_of_int i) && go (i + 1)) in go 0) in
       let nlen sub = n_of_int (SL.length sub.ns_vals) in
       "ok " ^ show_dstr text
       ^ " shape=" ^ b01 (TextFmtSpec.sections_shape m.m_sections)
       ^ ",pval=" ^ b01 (pvals_ok repr m.m_sections && nolb m.m_key)
       ^ ",vtext=" ^ b01 vtext
       ^ ",labels=" ^ b01 (all (fun sub -> TextFmtSpec.attr_labels_ok sub.ns_dstr sub.ns_attrs))
       ^ ",depth=" ^ b01 (all (fun sub -> TextFmtSpec.attrs_depth_ok sub.ns_attrs))
       ^ ",range=" ^ b01 (all (fun sub -> TextFmtSpec.attrs_in_range (nlen sub) sub.ns_attrs))
       ^ ",nv=" ^ b01 (all (fun sub -> SL.for_all (TextFmtSpec.nv_ok sub.ns_nvstr) (TextFmtSpec.nv_ids_list sub.ns_nodes)))
       ^ ",xnext=" ^ b01 !xnext_ok
       ^ ",nonempty=" ^ b01 (nsubsets <> []))
  | _ -> failwith "c09nested"

let () =
  Common.register "c09flat" cmd_flat;
  Common.register "c09parse" cmd_parse;
  Common.register "c09nested" cmd_nested
