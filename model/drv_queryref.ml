(* drv_queryref.ml — the C16 reference evaluators (QueryRef.v) on the extracted model:
   queryref <labels> <values> <links> <path as hex of its characters> <template>
   wires the subset, renders it (Nested.render_nodes, attributes unfolded |path| deep) and
   evaluates the path over the rendering (QueryRef.eval_json) and over the tree
   (QueryRef.eval_ref); prints the common answer, "REFDIFF ..." if the two differ,
   the descendant steps of a path are evaluated by the search over the rendering
   (QueryRef.jdesc; values directly and nodes-then-values must agree); "nonwf" for a
   separator other than / . >. *)
open Common

let chars_of_string (s : string) : BinNums.coq_N list =
  SL.init (String.length s) (fun i -> n_of_int (Char.code s.[i]))

let cmd_queryref args =
  match args with
  | labels :: vals :: links :: pathhex :: tmpl ->
    let labels_a = if labels = "-" then [] else String.split_on_char ',' labels in
    let vals = Drv_coder.parse_values vals in
    let links = if links = "-" then [] else
        SL.map (fun kv -> match String.split_on_char '>' kv with
            | [a; b] -> (n_of_string a, n_of_string b) | _ -> failwith "links") (String.split_on_char ',' links) in
    let (t, _) = Drv_coder.parse_template tmpl in
    let ndesc = n_of_int (SL.length labels_a) in
    (match PathParser.parse (bytes_of_hex pathhex) with
     | Base.Err e -> "parse-" ^ err_string e
     | Base.Ok p ->
       let cs = p.PathParser.p_comps in
       if not (QueryRef.wf_path cs) then "nonwf" else
       (match Wire.wire ndesc vals links t with
        | Base.Err e -> "wire-" ^ err_string e
        | Base.Ok (nodes, st) ->
          let lab = SL.map chars_of_string labels_a in
          (* attributes unfolded |path| deep for child/attribute paths; a descendant search needs the
             rendering saturated: the attribute relation has at most |attrs| links on a chain *)
          let simple = QueryRef.simple_path cs in
          let k = nat_of_int (if simple then SL.length cs else SL.length cs + SL.length st.Wire.x_attrs + 1) in
          if not simple && not (QueryRef.saturated st.Wire.x_attrs k) then "unsaturated" else
          let js = Nested.render_nodes st.Wire.x_attrs (fun _ -> false) vals k nodes in
          let rec sv (v : Query.vres) = match v with
            | Query.VIdx i -> string_of_int (int_of_n i)
            | Query.VList l -> "[" ^ String.concat "," (SL.map sv l) ^ "]" in
          let show r = match r with
            | Base.Err e -> err_string e
            | Base.Ok vs -> "ok [" ^ String.concat "," (SL.map sv vs) ^ "]" in
          let a = show (QueryRef.eval_json lab js cs) in
          let n = show (QueryRef.eval_json_nodes lab js cs) in
          let b = if simple then show (QueryRef.eval_ref st.Wire.x_attrs lab nodes cs) else a in
          if a = b && a = n then a else "REFDIFF json=" ^ a ^ " nodes=" ^ n ^ " tree=" ^ b))
  | _ -> failwith "queryref"

let () = Common.register "queryref" cmd_queryref
