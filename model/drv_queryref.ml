(* drv_queryref.ml — the C16 reference evaluators (QueryRef.v) on the extracted model:
   queryref <labels> <values> <links> <path as hex of its characters> <template>
   wires the subset, renders it (Nested.render_nodes, attributes unfolded |path| deep) and
   evaluates the path over the rendering (QueryRef.eval_json) and over the tree
   (QueryRef.eval_ref); prints the common answer, "REFDIFF ..." if the two differ,
   "nonsimple" for a path with a descendant step (outside the references). *)
open Common

let chars_of_string (s : string) : BinNums.coq_N list =
  SL.init (String.length s) (fun i -> n_of_int (Char.code s.[i]))

let cmd_queryref args =
  match args with
  | labels :: vals :: links :: pathhex :: tmpl ->
    let labels_a = if labels = "-" then [] else String.split_on_char ',' labels in
    let vals = Drv_coder.parse_values vals in
    let links = if links = "-" then [] else
        SL.map (fun kv -> match String.split_on_char '>' kv with
            | [a; b] -> (n_of_string a, n_of_string b) | _ -> failwith "links") (String.split_on_char ',' links) in
    let (t, _) = Drv_coder.parse_template tmpl in
    let ndesc = n_of_int (SL.length labels_a) in
    (match PathParser.parse (bytes_of_hex pathhex) with
     | Base.Err e -> "parse-" ^ err_string e
     | Base.Ok p ->
       let cs = p.PathParser.p_comps in
       if not (QueryRef.simple_path cs) then "nonsimple" else
       (match Wire.wire ndesc vals links t with
        | Base.Err e -> "wire-" ^ err_string e
        | Base.Ok (nodes, st) ->
          let lab = SL.map chars_of_string labels_a in
          let k = nat_of_int (SL.length cs) in
          let js = Nested.render_nodes st.Wire.x_attrs (fun _ -> false) vals k nodes in
          let rec sv (v : Query.vres) = match v with
            | Query.VIdx i -> string_of_int (int_of_n i)
            | Query.VList l -> "[" ^ String.concat "," (SL.map sv l) ^ "]" in
          let show r = match r with
            | Base.Err e -> err_string e
            | Base.Ok vs -> "ok [" ^ String.concat "," (SL.map sv vs) ^ "]" in
          let a = show (QueryRef.eval_json lab js cs) in
          let b = show (QueryRef.eval_ref st.Wire.x_attrs lab nodes cs) in
          if a = b then a else "REFDIFF json=" ^ a ^ " tree=" ^ b))
  | _ -> failwith "queryref"

let () = Common.register "queryref" cmd_queryref
