(* drv_rtc.ml — the compressed ghost encoders of EncodeCG.v (hypotheses of the
   compressed round-trip and transparency theorems, RoundTripC.v / TransparentC.v):
     enccg  <values> <template>   EncodeCG.encode_compressed_ghost
     enccgs <values> <template>   EncodeCG.encode_compressed_ghost_strict
   output: ok <bits> <labels> <links> <ghost values per subset> | err k *)
open Common

let ghost_cmd f name args =
  match args with
  | vals :: tmpl ->
    let (t, _) = Drv_coder.parse_template tmpl in
    (match f t (Drv_coder.parse_subsets vals) with
     | Base.Err e -> err_string e
     | Base.Ok ((outs, w), g) ->
       "ok " ^ Drv_coder.hexn_of_bits w ^ " " ^ Drv_coder.show_outs outs ^ " " ^ Drv_coder.show_subsets g)
  | _ -> failwith name

let () =
  register "enccg" (ghost_cmd EncodeCG.encode_compressed_ghost "enccg");
  register "enccgs" (ghost_cmd EncodeCG.encode_compressed_ghost_strict "enccgs")
