(* drv_subset.ml — commands over Subset.v (C10).
   Parameter values and per-subset value lists are opaque OCaml strings (tokens
   interned by the harness); the model only moves them around. *)
open Common
open Subset

(* message tokens:  "|" starts a new section;  p:<name>:<value-token>  a plain
   parameter;  d:<name>:<s1>,<s2>,...  template data ("-" = no subsets) *)
let parse_msg (toks : string list) : (string, string) param list list =
  let secs = ref [] and cur = ref [] in
  let flush () = secs := SL.rev !cur :: !secs; cur := [] in
  let started = ref false in
  SL.iter (fun t ->
    if t = "|" then (if !started then flush (); started := true)
    else match String.split_on_char ':' t with
      | ["p"; name; v] -> cur := PPlain (n_of_string name, v) :: !cur
      | ["d"; name; l] ->
        let subs = if l = "-" then [] else String.split_on_char ',' l in
        cur := PData (n_of_string name, subs) :: !cur
      | _ -> failwith ("param " ^ t)) toks;
  if !started then flush ();
  SL.rev !secs

let show_oval (o : (string, string) oval) : string =
  match o with
  | OVal v -> "v:" ^ v
  | OCount z -> "c:" ^ string_of_z z
  | OData l -> "d:" ^ (if l = [] then "-" else String.concat "," l)

let show_out secs =
  String.concat " " (SL.map (fun sec -> "|" ^ (if sec = [] then "" else " " ^ String.concat " " (SL.map show_oval sec))) secs)

let parse_indices (s : string) : BinNums.coq_Z list =
  if s = "-" then [] else SL.map z_of_string (String.split_on_char ',' s)

(* subset <fixed|orig> <n> <indices> <message tokens...> *)
let cmd_subset args =
  match args with
  | rule :: n :: idx :: msg ->
    let secs = parse_msg msg in
    let n = z_of_string n and idx = parse_indices idx in
    let r = (if rule = "orig" then subset_orig n secs idx else subset n secs idx) in
    (match r with
     | Base.Err e -> err_string e
     | Base.Ok out -> "ok " ^ (if msg_ok n secs then "1" else "0") ^ " "
                      ^ "sel=" ^ (let s = sel_idx BinNums.Z0 idx (nat_of_int (int_of_z n)) in
                                  if s = [] then "-" else String.concat "," (SL.map string_of_z s))
                      ^ " " ^ show_out out)
  | _ -> failwith "subset"

let () = register "subset" cmd_subset
