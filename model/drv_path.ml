(* drv_path.ml — commands over PathParser.v / PathGrammar.v (C15).
   Strings travel as hex of their (ASCII) bytes, "-" for the empty string. *)
open Common
open PathParser

let show_oz (a : BinNums.coq_Z option) : string =
  match a with None -> "N" | Some k -> string_of_z k

let show_slc (s : slc) : string =
  match s with
  | SInt k -> "i" ^ string_of_z k
  | SSlice (a, b, c) -> "s" ^ show_oz a ^ "," ^ show_oz b ^ "," ^ show_oz c

let show_comp (c : comp) : string =
  string_of_int (int_of_n c.c_sep) ^ ":" ^ hex_of_bytes c.c_id ^ ":" ^ show_slc c.c_slice

let show_path (p : path) : string =
  "S=" ^ (match p.p_subset with None -> "None" | Some s -> show_slc s)
  ^ " C=" ^ (if p.p_comps = [] then "-" else String.concat "|" (SL.map show_comp p.p_comps))

(* path <hex> : parse (repaired code); accepted paths are also printed (to_string) *)
let cmd_path parser args =
  match args with
  | [h] ->
    (match parser (bytes_of_hex h) with
     | Base.Err e -> err_string e
     | Base.Ok p -> "ok " ^ show_path p ^ " P=" ^ hex_of_bytes (to_string p))
  | _ -> failwith "path"

(* grammar <hex> : the reference grammar (recogniser) on the string *)
let cmd_grammar args =
  match args with
  | [h] ->
    (match PathGrammar.grammar (bytes_of_hex h) with
     | None -> "reject"
     | Some p -> "ok " ^ show_path p)
  | _ -> failwith "grammar"

(* pyint <hex> : Python's int() on an ASCII token *)
let cmd_pyint args =
  match args with
  | [h] -> (match py_int (bytes_of_hex h) with None -> "None" | Some k -> string_of_z k)
  | _ -> failwith "pyint"

(* holds <hex> : the two executable predicates of the theorems *)
let cmd_holds args =
  match args with
  | [h] ->
    let s = bytes_of_hex h in
    (if PathGrammar.agrees s then "1" else "0") ^ (if PathGrammar.reparses s then "1" else "0")
  | _ -> failwith "holds"

let () =
  register "path" (cmd_path parse);
  register "pathorig" (cmd_path parse_orig);
  register "grammar" cmd_grammar;
  register "pyint" cmd_pyint;
  register "pathholds" cmd_holds
