(* drv_tabledef.ml — NCEP table definition extraction (TableDef.v) *)
open Common
open TableDef

(* tabledef <values of the single subset> -> B entries and D entries, strings as hex *)
let cmd_tabledef args =
  match args with
  | [vals] ->
    (match process_defs (Drv_coder.parse_values vals) with
     | Base.Err e -> err_string e
     | Base.Ok (bs, ds) ->
       let hb = hex_of_bytes in
       let sb b = String.concat "|" [hb b.b_key; hb b.b_name; hb b.b_unit; string_of_z b.b_scale; string_of_z b.b_ref; string_of_z b.b_nbits] in
       let sd d = String.concat "|" [hb d.d_key; hb d.d_name; (if d.d_members = [] then "-" else String.concat "," (SL.map hb d.d_members))] in
       "ok B " ^ (if bs = [] then "-" else String.concat ";" (SL.map sb bs))
       ^ " D " ^ (if ds = [] then "-" else String.concat ";" (SL.map sd ds)))
  | _ -> failwith "tabledef"

let () = Common.register "tabledef" cmd_tabledef
