(* drv_bits.ml — commands over Bits.v (C19) *)
open Common
open Bits

let parse_field (s : string) : field =
  match String.split_on_char ':' s with
  | ["u"; w; v] -> FUint (z_of_string w, z_of_string v)
  | ["i"; w; v] -> FInt (z_of_string w, z_of_string v)
  | ["b"; b] -> FBool (b = "1")
  | ["n"; b] -> FBin (bits_of_string b)
  | ["y"; n; h] -> FBytes (z_of_string n, bytes_of_hex h)
  | _ -> failwith ("field " ^ s)

let show_value (v : fvalue) : string =
  match v with
  | VUint n -> "u" ^ string_of_n n
  | VSInt z -> "i" ^ string_of_z z
  | VBool b -> if b then "b1" else "b0"
  | VBin b -> "n" ^ string_of_bits b
  | VBytes l -> "y" ^ hex_of_bytes l

(* fields <prefix bits> <suffix bits> f1 f2 ... :
   write the fields after the prefix; then read them back from written++suffix
   (after skipping the prefix); print written bits, values, remaining bits *)
let cmd_fields args =
  match args with
  | pre :: suf :: fs ->
    let pre = bits_of_string pre and suf = bits_of_string suf in
    let fs = SL.map parse_field fs in
    (match write_fields fs pre with
     | Base.Err e -> "w" ^ err_string e
     | Base.Ok o ->
       let body = List.skipn (Datatypes.length pre) o in
       (match read_fields fs (Datatypes.app body suf) with
        | Base.Err e -> "w " ^ string_of_bits o ^ " r" ^ err_string e
        | Base.Ok (vs, rest) ->
          "w " ^ string_of_bits o ^ " r " ^ String.concat "," (SL.map show_value vs)
          ^ " " ^ string_of_bits rest))
  | _ -> failwith "fields"

(* read <kind> <w> <bits> : a single read on the given stream *)
let cmd_read args =
  match args with
  | [kind; w; b] ->
    let w = z_of_string w and b = bits_of_string b in
    let fin show r = (match r with
      | Base.Err e -> err_string e
      | Base.Ok (v, rest) -> "ok " ^ show v ^ " " ^ string_of_int (SL.length b - SL.length rest)) in
    (match kind with
     | "uint" -> fin string_of_n (read_uint w b)
     | "int" -> fin string_of_z (read_int w b)
     | "bool" -> fin (fun x -> if x then "1" else "0") (read_bool b)
     | "bin" -> fin string_of_bits (read_bin w b)
     | "bytes" -> fin hex_of_bytes (read_bytes w b)
     | "uon" -> fin (fun x -> match x with None -> "None" | Some n -> string_of_n n) (read_uint_or_none w b)
     | _ -> failwith "read kind")
  | _ -> failwith "read"

(* setuint <v> <w> <pos> <bits> *)
let cmd_setuint args =
  match args with
  | [v; w; pos; b] ->
    (match set_uint (z_of_string v) (z_of_string w) (nat_of_int (int_of_string pos)) (bits_of_string b) with
     | Base.Err e -> err_string e
     | Base.Ok o -> "ok " ^ string_of_bits o)
  | _ -> failwith "setuint"

let cmd_skip args =
  match args with
  | [w; b] ->
    (match skip (z_of_string w) (bits_of_string b) with
     | Base.Err e -> err_string e
     | Base.Ok o -> "ok " ^ string_of_bits o)
  | _ -> failwith "skip"

let () =
  register "fields" cmd_fields;
  register "read" cmd_read;
  register "setuint" cmd_setuint;
  register "skip" cmd_skip
