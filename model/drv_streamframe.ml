(* drv_streamframe.ml — the scanner over the CONCRETE framing decoder
   (StreamFrame.frame_generate), with the template-decoder stub of drv_frame.ml
   (templates of 031031 only).  C11/C12 end to end. *)
open Common

(* fgen <info_only> <continue_on_error> <filter: - | data category> <hex stream> :
   n=<k> <hex piece>,... end none|err <code>
   view = nothing; the table-definition processor is never reached on the
   generated streams (no data category 11) and would answer "other error";
   the filter is '${%data_category} == <k>' *)
let cmd_fgen args =
  match args with
  | [io; coe; flt; hex] ->
    let s = bytes_of_hex hex in
    let view _ = [] in
    let tdp _ = Base.Err Base.EOther in
    let use_filter = flt <> "-" in
    let filt (mi : Stream.msginfo) : bool Base.result =
      if not use_filter then Base.Err Base.EOther else
      match mi.Stream.mi_meta with
      | dc :: _ -> Base.Ok (int_of_n dc = int_of_string flt)
      | [] -> Base.Err Base.EAttr in
    let (pieces, ending) =
      StreamFrame.frame_generate Drv_frame.stub_decode_data view tdp filt
        (Drv_stream.flag io) (Drv_stream.flag coe) use_filter s in
    let ps = SL.map hex_of_bytes pieces in
    Printf.sprintf "n=%d %s end %s" (SL.length ps)
      (if ps = [] then "_" else String.concat "," ps)
      (match ending with None -> "none" | Some e -> err_string e)
  | _ -> failwith "fgen"

let () = register "fgen" cmd_fgen
