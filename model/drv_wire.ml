(* drv_wire.ml — wiring and nested rendering (Wire.v, Nested.v) *)
open Common
open Wire
open Nested

let show_id (id : BinNums.coq_N) : string = Printf.sprintf "%06d" (int_of_n id)

(* wire <labels> <values> <links> <template>
   labels: comma separated label strings per flat index ("-" if none)
   values: one subset, as in the coder driver
   links:  a>b,a>b or "-"                                                   *)
let cmd_wire args =
  match args with
  | labels :: vals :: links :: tmpl ->
    let labels = if labels = "-" then [||] else Array.of_list (String.split_on_char ',' labels) in
    let vals = Drv_coder.parse_values vals in
    let links = if links = "-" then [] else
        SL.map (fun kv -> match String.split_on_char '>' kv with
            | [a; b] -> (n_of_string a, n_of_string b) | _ -> failwith "links") (String.split_on_char ',' links) in
    let (t, _) = Drv_coder.parse_template tmpl in
    let ndesc = n_of_int (Array.length labels) in
    (match wire ndesc vals links t with
     | Base.Err e -> err_string e
     | Base.Ok (nodes, st) ->
       let label i = let k = int_of_n i in if k < Array.length labels then labels.(k) else "?" in
       let is_assoc i = let l = label i in String.length l > 0 && l.[0] = 'A' in
       let js = render_nodes st.x_attrs is_assoc vals (nat_of_int 4) nodes in
       let rec sv (v : jv) = match v with
         | JV (i, virt, ats) ->
           label i ^ "=" ^ string_of_int (int_of_n i) ^ (if virt then "*" else "")
           ^ (if ats = [] then "" else "{" ^ String.concat "," (SL.map sv ats) ^ "}") in
       let rec sn (n : jn) = match n with
         | JNo id -> "N" ^ show_id id
         | JSeqN (id, ms) -> "S" ^ show_id id ^ "(" ^ String.concat "," (SL.map sn ms) ^ ")"
         | JRep (id, f, reps) ->
           "R" ^ show_id id ^ (match f with Some v -> "F" ^ sv v | None -> "")
           ^ "(" ^ String.concat "|" (SL.map (fun rep -> String.concat "," (SL.map sn rep)) reps) ^ ")"
         | JVal v -> sv v in
       let flat = nested_to_flat js in
       let flat2 = flat_nodes st.x_attrs nodes in
       "ok " ^ (if js = [] then "-" else String.concat "," (SL.map sn js))
       ^ " " ^ (if flat = [] then "-" else String.concat "," (SL.map (fun i -> string_of_int (int_of_n i)) flat))
       ^ " " ^ (if flat = flat2 then "same" else "DIFF")
       ^ " " ^ string_of_int (int_of_n st.x_next))
  | _ -> failwith "wire"

(* query <labels> <values> <links> <path as hex of its characters> <template> *)
let chars_of_string (s : string) : BinNums.coq_N list =
  SL.init (String.length s) (fun i -> n_of_int (Char.code s.[i]))

let cmd_query args =
  match args with
  | labels :: vals :: links :: pathhex :: tmpl ->
    let labels_a = if labels = "-" then [] else String.split_on_char ',' labels in
    let vals = Drv_coder.parse_values vals in
    let links = if links = "-" then [] else
        SL.map (fun kv -> match String.split_on_char '>' kv with
            | [a; b] -> (n_of_string a, n_of_string b) | _ -> failwith "links") (String.split_on_char ',' links) in
    let (t, _) = Drv_coder.parse_template tmpl in
    let ndesc = n_of_int (SL.length labels_a) in
    let path_chars = bytes_of_hex pathhex in
    (match PathParser.parse path_chars with
     | Base.Err e -> "parse-" ^ err_string e
     | Base.Ok p ->
       (match wire ndesc vals links t with
        | Base.Err e -> "wire-" ^ err_string e
        | Base.Ok (nodes, st) ->
          let lab = SL.map chars_of_string labels_a in
          (match Query.process_one_subset st.x_attrs lab (nat_of_int 200) nodes p with
           | Base.Err e -> err_string e
           | Base.Ok vs ->
             let rec sv (v : Query.vres) = match v with
               | Query.VIdx i -> string_of_int (int_of_n i)
               | Query.VList l -> "[" ^ String.concat "," (SL.map sv l) ^ "]" in
             "ok [" ^ String.concat "," (SL.map sv vs) ^ "]")))
  | _ -> failwith "query"

(* qsubsets <n> <path hex> *)
let cmd_qsubsets args =
  match args with
  | [n; pathhex] ->
    (match PathParser.parse (bytes_of_hex pathhex) with
     | Base.Err e -> "parse-" ^ err_string e
     | Base.Ok p ->
       (match Query.subset_indices (nat_of_int (int_of_string n)) p with
        | Base.Err e -> err_string e
        | Base.Ok l -> "ok " ^ (if l = [] then "-" else String.concat "," (SL.map string_of_z l))))
  | _ -> failwith "qsubsets"

let () =
  Common.register "wire" cmd_wire;
  Common.register "query" cmd_query;
  Common.register "qsubsets" cmd_qsubsets
