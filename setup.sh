#!/bin/bash
# setup.sh — build everything from files on disk: Coq library (full .vo build),
# extraction to OCaml, the model driver.  Idempotent; safe to re-run.
set -u
cd "$(dirname "$0")"
ROOT=$(pwd)
JOBS=${VERIF_JOBS:-16}

# 1. _CoqProject from the files present (no shared file to edit when adding a module)
( cd coq
  { echo "-Q theories PBK"; ls theories/*.v | sort; } > _CoqProject.new
  if ! cmp -s _CoqProject.new _CoqProject 2>/dev/null; then mv _CoqProject.new _CoqProject; coq_makefile -f _CoqProject -o Makefile >/dev/null; else rm -f _CoqProject.new; fi
  [ -f Makefile ] || coq_makefile -f _CoqProject -o Makefile >/dev/null
  timeout 3000 make -k -j"$JOBS" > "$ROOT/coq/build.log" 2>&1
  echo "coq make exit=$?" >> "$ROOT/coq/build.log"
)
if ! tail -1 coq/build.log | grep -q 'exit=0'; then
  echo "setup: coq build FAILED (see coq/build.log)"; grep -B2 -A8 'Error' coq/build.log | head -60
  COQ_FAIL=1
else COQ_FAIL=0; fi

# 2. extraction (model files only; does not need the proof files)
mkdir -p model/gen
( cd model/gen
  mods=$(cat "$ROOT"/coq/extraction/*.roots | sed -n 's/^modules: *//p' | tr ' ' '\n' | sort -u | tr '\n' ' ')
  roots=$(cat "$ROOT"/coq/extraction/*.roots | sed -n 's/^roots: *//p' | tr ' ' '\n' | sort -u | tr '\n' ' ')
  { echo "Require Extraction. Require Import ExtrOcamlBasic."
    echo "From PBK Require Import $mods."
    echo "Separate Extraction $roots."; } > Extract.v.new
  if ! cmp -s Extract.v.new Extract.v 2>/dev/null || [ ! -f Base.ml ] || [ -n "$(find "$ROOT"/coq/theories -name '*.vo' -newer Extract.stamp 2>/dev/null | head -1)" ] || [ ! -f Extract.stamp ]; then
    mv Extract.v.new Extract.v
    rm -f *.ml *.mli
    timeout 600 coqc -Q "$ROOT"/coq/theories PBK Extract.v > extract.log 2>&1 || { echo "setup: extraction FAILED"; cat extract.log | head -30; exit 1; }
    touch Extract.stamp
  else rm -f Extract.v.new; fi
)

# 3. OCaml driver (rebuilt only when its inputs changed; installed atomically)
( cd model
  sum=$(cat gen/*.ml gen/*.mli common.ml drv_*.ml main.ml | md5sum | cut -d' ' -f1)
  if [ -x main.native ] && [ "$(cat .build.sum 2>/dev/null)" = "$sum" ]; then exit 0; fi
  rm -rf _build; mkdir -p _build
  cp gen/*.ml gen/*.mli common.ml drv_*.ml main.ml _build/
  cd _build
  gens=$(ocamlfind ocamldep -sort $(ls ../gen/*.ml ../gen/*.mli | xargs -n1 basename) 2>/dev/null)
  if timeout 900 ocamlfind ocamlopt -O2 -w -a -o main.native.new $gens common.ml $(ls drv_*.ml) main.ml > ../ocaml.log 2>&1 \
   || timeout 900 ocamlfind ocamlopt -w -a -o main.native.new $gens common.ml $(ls drv_*.ml) main.ml > ../ocaml.log 2>&1; then
    mv main.native.new ../main.native; echo "$sum" > ../.build.sum
  else
    echo "setup: ocaml build FAILED"; head -30 ../ocaml.log; rm -f ../main.native ../.build.sum; exit 1
  fi
) || exit 1
[ -x model/main.native ] || exit 1
[ "$COQ_FAIL" = 0 ] || exit 1
echo "setup: ok"
